"""C14 — file encoding is transparent: the result depends only on the decoded text."""
import time, json, re
import z3
from framework import kernel, Finding, fn_paths, Part, par_map, merge_part, replay_factory, REPLAYS
from mirsym.machine import *
from mirsym.mirread import Unsupported
from mirsym import models
from . import lexcommon as LC

CR = ['ironplcc', 'ironplc-dsl', 'ironplc-parser', 'ironplc-analyzer']
# 'windows1252' = text whose non-ASCII characters are all in U+00A0..U+00FF (same bytes in ISO-8859-1); 'windows1252-c1' = text with a character
# that Windows-1252 stores in 0x80..0x9F (euro sign, dashes, curly quotes): ISO-8859-1 reads those bytes as C1 control characters
ENCODINGS = ['utf8', 'utf8-bom', 'utf16le-bom', 'utf16be-bom', 'windows1252', 'windows1252-c1', 'binary']

def _add(kr, role, what, wit, replay):
    if any(f.role == role for f in kr.findings): return
    kr.findings.append(Finding(role, what, wit, replay=REPLAYS[replay[0]](*replay[1]) if replay else None))

def _decode_contract(M, decoder, enc, method, part=False):
    """encoding_rs by contract.  A file is (stored encoding, text T with at least one non-ASCII character).
    `decode`: BOM sniffing first (UTF-8 / UTF-16LE / UTF-16BE BOM selects that encoding whatever `self` is), else decode as `self`.
    `decode_with_bom_removal`: only the BOM of `self` is removed, no sniffing.  `decode_without_bom_handling`: no BOM handling.
    UTF-8 decoding of bytes that are not UTF-8 reports had_errors; WINDOWS-1252 decoding never reports errors.
    returns (text tag, had_errors)"""
    has_bom = {'utf8-bom': 'UTF_8', 'utf16le-bom': 'UTF_16LE', 'utf16be-bom': 'UTF_16BE'}.get(enc)
    if part:
        # a proper part of the file (a prefix, a chunk): it may end inside a multi-byte character, and it may lack the non-ASCII characters of the whole;
        # so whether a UTF-8 / UTF-16 decoder reports errors on it is not determined by the file's encoding (fresh boolean); WINDOWS-1252 never reports errors
        if decoder in ('WINDOWS_1252', 'LATIN1') and not (method == 'decode' and has_bom): return 'part of T', False
        return 'part of T', M.fresh_bool('part_had_errors')
    if method == 'decode' and has_bom: return 'T', False
    if method == 'decode_with_bom_removal' and has_bom == decoder: return 'T', False
    if decoder == 'UTF_8':
        if enc == 'utf8': return 'T', False
        if enc == 'utf8-bom': return '﻿T', False            # BOM kept as a character
        return 'replacement', True
    if decoder == 'WINDOWS_1252':
        return ('T' if enc.startswith('windows1252') else 'mojibake'), False
    if decoder == 'LATIN1':
        return ('T' if enc == 'windows1252' else 'mojibake'), False
    if decoder in ('UTF_16LE', 'UTF_16BE'):
        return ('T', False) if enc.startswith(decoder.lower().replace('_', '')) else ('replacement', True)
    raise Unsupported('decoder ' + decoder)

@kernel('K1 source.decoder_cascade')
def k1(ctx, kr):
    P = ctx.program(CR)
    key = P.find_fn('ironplcc', 'source::path_to_source')
    st = {}
    def st_read(M, fr, callee, a):
        if M.branch(st['read_ok']): return ok(Agg('FileBytes', ['whole']))
        return err(Opaque('io::Error'))
    def file_bytes(M, v):
        while isinstance(v, Ref): v = M.deref(v)
        return v if isinstance(v, Agg) and v.name == 'FileBytes' else None
    def st_len(M, fr, callee, a):
        fb = file_bytes(M, a[0])
        if fb is None: return NotImplemented
        st.setdefault('len', {}); k = fb.f[0]
        if k not in st['len']: st['len'][k] = M.fresh_bv('len_' + k, 64)
        return st['len'][k] if callee.endswith('len') else (st['len'][k] == 0)
    def st_slice(M, fr, callee, a):
        fb = file_bytes(M, a[0])
        if fb is None: return NotImplemented
        r = Ref(Cell(Agg('FileBytes', ['part'])))
        return some(r) if re.search(r'::(get|first_chunk|split_first_chunk)$', callee) else r
    def st_same(M, fr, callee, a):
        fb = file_bytes(M, a[0])
        if fb is None: return NotImplemented
        return a[0] if isinstance(a[0], Ref) else Ref(Cell(fb))
    def st_decode(M, fr, callee, a):
        dec = M.deref(a[0])
        if not (isinstance(dec, Agg) and dec.name.startswith('static:encoding_rs::')): raise Unsupported('decoder value %r' % (dec,))
        method = re.search(r'Encoding::(\w+)$', callee).group(1)
        fb = file_bytes(M, a[1]); part = fb is not None and fb.f[0] == 'part'
        text, bad = _decode_contract(M, dec.name.split('::')[-1], st['enc'], method, part)
        st['used'].append((dec.name.split('::')[-1], method + (' (on a part of the file)' if part else '')))
        if method == 'decode': return Agg('()', [Str(text), a[0], bad])
        if method == 'decode_with_bom_removal': return Agg('()', [Str(text), bad])
        if method == 'decode_without_bom_handling': return Agg('()', [Str(text), bad])
        raise Unsupported('encoding_rs method ' + method)
    # streaming API of encoding_rs by contract: Encoding::new_decoder() sniffs the BOM like Encoding::decode(); Decoder::decode_to_string(src, dst, last) appends
    # to dst WITHOUT growing it (at most dst.capacity() - dst.len() bytes) and answers OutputFull when the text does not fit; the UTF-8 form of a Windows-1252
    # text with a non-ASCII character is longer than the file, a UTF-16 file's text may be longer or shorter than the file, a UTF-8 file's text is not longer.
    def st_new_decoder(M, fr, callee, a):
        dec = M.deref(a[0]); kind = re.search(r'Encoding::(\w+)$', callee).group(1)
        return Agg('Decoder', [dec, {'new_decoder': 'decode', 'new_decoder_with_bom_removal': 'decode_with_bom_removal', 'new_decoder_without_bom_handling': 'decode_without_bom_handling'}[kind]])
    def st_with_capacity(M, fr, callee, a):
        sx = Str([]); c = simp(a[0])
        lens = st.get('len', {})
        st.setdefault('caps', {})[id(sx)] = (sx, 'file-bytes' if any(is_sym(c) and c.eq(v) for v in lens.values()) else ('enough' if isinstance(c, Opaque) and c.tag == 'max_utf8_buffer_length' else 'other'))
        return sx
    def st_max_len(M, fr, callee, a): return some(Opaque('max_utf8_buffer_length')) if 'checked' in callee or callee.endswith('max_utf8_buffer_length') else Opaque('max_utf8_buffer_length')
    def st_decode_to_string(M, fr, callee, a):
        d = M.deref(a[0]); dec = d.f[0]; method = d.f[1]
        fb = file_bytes(M, a[1]); part = fb is not None and fb.f[0] == 'part'
        dst = a[2]
        while isinstance(dst, Ref) and not isinstance(M.deref(dst), (Str, SymStr)): dst = M.deref(dst)
        dstv = M.deref(dst)
        text, bad = _decode_contract(M, dec.name.split('::')[-1], st['enc'], method, part)
        st['used'].append((dec.name.split('::')[-1], 'Decoder::decode_to_string'))
        cap = st.get('caps', {}).get(id(dstv), (None, 'other'))[1]
        enc = st['enc']
        if cap == 'enough': fits = True
        elif cap == 'file-bytes': fits = True if enc in ('utf8', 'utf8-bom') else (False if enc.startswith('windows1252') else M.branch(M.fresh_bool('utf16_text_fits')))
        else: fits = M.branch(M.fresh_bool('text_fits_capacity'))
        if text == 'T' and not fits: text = 'T cut short'
        dstv.b = list(dstv.b) + list(text.encode())
        return Agg('()', [EnumV('CoderResult', 0 if fits else 1, []), Opaque('read'), bad])
    def st_decoder_encoding(M, fr, callee, a): return M.deref(a[0]).f[0]
    def st_from_utf8(M, fr, callee, a):
        # String::from_utf8 / str::from_utf8 over the abstract file: Ok(text as stored, a BOM stays a character) iff the stored bytes are UTF-8
        st['used'].append(('from_utf8', 'no BOM handling'))
        if st['enc'] == 'utf8': return ok(Str('T'))
        if st['enc'] == 'utf8-bom': return ok(Str('\ufeffT'))
        return err(Agg('FromUtf8Error', [a[0]]))
    def st_into_bytes(M, fr, callee, a): return a[0].f[0]
    def st_for_bom(M, fr, callee, a):
        # Encoding::for_bom(buffer): Some((encoding, length of the mark)) iff the buffer starts with a UTF-8 / UTF-16LE / UTF-16BE byte-order mark
        fb = file_bytes(M, a[0])
        if fb is None or fb.f[0] == 'part': raise Unsupported('Encoding::for_bom on a part of the file')
        st['used'].append(('for_bom', 'sniff'))
        e = {'utf8-bom': ('UTF_8', 3), 'utf16le-bom': ('UTF_16LE', 2), 'utf16be-bom': ('UTF_16BE', 2)}.get(st['enc'])
        if st['enc'] == 'binary':
            if not M.branch(M.fresh_bool('binary_starts_with_bom')): return none()
            e = ('UTF_8', 3)
        if e is None: return none()
        return some(Agg('()', [Ref(Cell(Agg('static:encoding_rs::' + e[0], []))), e[1]]))
    # byte-level questions about the abstract file, by what the stored form of a text (non-ASCII characters, no NUL character) looks like:
    # a zero byte occurs exactly in the UTF-16 forms; the file starts with the bytes of its byte-order mark (if it has one) and otherwise with text
    BOMS = {'utf8-bom': [0xEF, 0xBB, 0xBF], 'utf16le-bom': [0xFF, 0xFE], 'utf16be-bom': [0xFE, 0xFF]}
    def conc_bytes(M, v):
        while isinstance(v, Ref): v = M.deref(v)
        items = v.f if isinstance(v, Agg) else (v if isinstance(v, list) else None)
        if isinstance(v, Str): return list(v.b)
        if items is None: return None
        out = []
        for x in items:
            x = simp(x) if is_sym(x) else x
            if is_sym(x):
                if not z3.is_bv_value(x): return None
                x = x.as_long()
            if not isinstance(x, int): return None
            out.append(x)
        return out
    def st_contains(M, fr, callee, a):
        fb = file_bytes(M, a[0])
        if fb is None: return NotImplemented
        n = conc_bytes(M, Agg('[]', [M.deref(a[1])]))
        if st['enc'] == 'binary' or fb.f[0] == 'part' or n is None or n[0] != 0: return M.fresh_bool('file_contains_byte')
        st['used'].append(('bytes', 'contains(0)'))
        return z3.BoolVal(st['enc'].startswith('utf16'))
    def st_starts_with(M, fr, callee, a):
        fb = file_bytes(M, a[0])
        if fb is None: return NotImplemented
        pre = conc_bytes(M, a[1])
        if st['enc'] == 'binary' or fb.f[0] == 'part' or not pre or all(b < 0x80 for b in pre): return M.fresh_bool('file_starts_with')
        st['used'].append(('bytes', 'starts_with(%s)' % ' '.join('%02X' % b for b in pre)))
        return z3.BoolVal(BOMS.get(st['enc'], [])[:len(pre)] == pre)
    def st_latin1(M, fr, callee, a):
        # encoding_rs::mem::decode_latin1: every byte is the code point of the same value (ISO-8859-1), no errors, no BOM handling
        text, _ = _decode_contract(M, 'LATIN1', st['enc'], 'decode_without_bom_handling'); st['used'].append(('LATIN1', 'mem::decode_latin1'))
        return Str(text)
    M = Machine(P, stubs={r'^encoding_rs::Encoding::new_decoder(_with_bom_removal|_without_bom_handling)?$': st_new_decoder, r'^encoding_rs::Decoder::decode_to_string(_without_replacement)?$': st_decode_to_string,
                          r'^encoding_rs::Decoder::encoding$': st_decoder_encoding, r'^encoding_rs::Decoder::max_utf8_buffer_length(_without_replacement)?$': st_max_len,
                          r'^std::string::String::with_capacity$': st_with_capacity, r'^std::fs::read(::<.*>)?$': st_read, r'^std::vec::Vec::<u8>::(len|is_empty)$|^std::vec::Vec::<.*>::(len|is_empty)$|^core::slice::<impl \[.*\]>::(len|is_empty)$': st_len,
                          r'^<std::vec::Vec<u8> as std::ops::Index<std::ops::Range\w*<usize>>>::index$|^<\[u8\] as std::ops::Index<std::ops::Range\w*<usize>>>::index$|^core::slice::<impl \[.*\]>::(get|first_chunk|split_first_chunk)$|^core::slice::index::<impl std::ops::Index<.*> for \[.*\]>::index$': st_slice,
                          r'^<std::vec::Vec<u8> as std::ops::Deref>::deref$|^std::vec::Vec::<.*>::as_slice$|^<std::vec::Vec<.*> as std::convert::AsRef<\[.*\]>>::as_ref$': st_same, r'^std::string::String::from_utf8$|^std::str::from_utf8$|^core::str::from_utf8$': st_from_utf8,
                          r'^core::slice::<impl \[u8\]>::contains$': st_contains, r'^core::slice::<impl \[u8\]>::starts_with$': st_starts_with,
                          r'^encoding_rs::Encoding::for_bom$': st_for_bom,
                          r'^std::string::FromUtf8Error::into_bytes$': st_into_bytes, r'^encoding_rs::mem::decode_latin1$': st_latin1, r"^std::borrow::Cow::<'_, str>::into_owned$|^std::borrow::Cow::into_owned$|^<std::borrow::Cow<'_, str> as std::string::ToString>::to_string$": lambda M_, fr, c, a: (M_.deref(a[0]) if isinstance(a[0], Ref) else a[0]), r'^std::string::String::from_utf8_lossy$': lambda M_, fr, c, a: (_ for _ in ()).throw(Unsupported('from_utf8_lossy over an abstract file')), r'^encoding_rs::Encoding::decode': st_decode, r'^encoding_rs::Encoding::name$': lambda M_, fr, c, a: Ref(Cell(Str('enc'))),
                          r'^source::diagnostic$': lambda M_, fr, c, a: Agg('Diagnostic', [Str('problem:%d' % M_.deref(a[0]).disc if isinstance(M_.deref(a[0]), EnumV) else 'problem')]),
                          r'^<std::io::Error as std::string::ToString>::to_string$': lambda M_, fr, c, a: Str('io error')})
    def entry(M):
        st['read_ok'] = M.fresh_bool('read_ok'); st['used'] = []
        e = M.fresh_bv('enc', 8); M.assume(z3.ULT(e, len(ENCODINGS)))
        st['enc'] = ENCODINGS[M.choose([e == i for i in range(len(ENCODINGS))])]
        return M.call_fn(key, [Ref(Cell(Str('/p/f.st')))])
    def on_path(M, pr):
        kr.paths += 1
        if pr.inconclusive: kr.inconc(pr.inconclusive); return
        kr.nontrivial += 1
        s = z3.Solver(); s.add(*pr.pc); s.check(); kr.queries += 1
        rok = z3.is_true(s.model().eval(st['read_ok'], True))
        wit = {'stored_encoding': st['enc'], 'file_readable': rok, 'decoders_tried': st['used']}
        if pr.panic: _add(kr, 'C14/K1/panic/' + st['enc'], 'path_to_source panics: ' + pr.panic.msg[:60], wit, None); return
        res = pr.result
        if not rok:
            if res.disc != 1: _add(kr, 'C14/K1/unreadable-file-accepted', 'an unreadable file yields Ok', wit, None)
            return
        text = M.deref(res.f[0]).conc() if res.disc == 0 else None
        if st['enc'] in ('utf8', 'utf8-bom', 'utf16le-bom', 'utf16be-bom', 'windows1252', 'windows1252-c1'):
            if text != 'T':
                _add(kr, 'C14/K1/decoded-text-differs/' + st['enc'], 'a program stored as %s is read as %s instead of its text (decoders tried: %s)' % (st['enc'], repr(text) if text else 'an error', st['used']), wit, ('encoding', (st['enc'],)))
        if st['enc'] != 'binary' and text == 'T' and len(kr.validate) < 6: kr.validate.append(('encoding', (st['enc'],)))
        if len(kr.samples) < 6: kr.samples.append({'file': wit, 'result': text if text else 'Err'})
    M.explore(entry, on_path)
    kr.queries += M.stats['smt']
    kr.functions = fn_paths(P, M.encoded); kr.models = sorted(M.models_used)
    kr.stubs = ['std::fs::read -> Ok(bytes) / Err', 'String::from_utf8 / str::from_utf8 by contract over the abstract file (no BOM handling)', 'encoding_rs::Encoding::{decode, decode_with_bom_removal, decode_without_bom_handling} by documented contract over abstract files (stored encoding x text with a non-ASCII character)']
    kr.bounds = 'stored encoding in %s; file readable or not' % ENCODINGS
    kr.exhaustive = True
    kr.outside = ['correctness of encoding_rs itself; UTF-16 without BOM']

@replay_factory('encoding')
def _replay_encoding(enc):
    def rp(ctx):
        text = 'PROGRAM p\nVAR\n  x : INT; (* café ü *)\nEND_VAR\n  y := 1;\nEND_PROGRAM\n'
        if enc == 'windows1252-c1': text = 'PROGRAM p\nVAR\n  x : INT; (* 5 € – “quoted” *) @\nEND_VAR\n  y := 1;\nEND_PROGRAM\n'      # the invalid character after the comment makes the column observable
        data = {'windows1252-c1': text.encode('cp1252'), 'utf8': text.encode('utf-8'), 'utf8-bom': b'\xef\xbb\xbf' + text.encode('utf-8'), 'utf16le-bom': b'\xff\xfe' + text.encode('utf-16-le'),
                'utf16be-bom': b'\xfe\xff' + text.encode('utf-16-be'), 'windows1252': text.encode('cp1252')}.get(enc)
        rc0, out0, err0 = ctx.ironplcc(['check'], {'f.st': text.encode('utf-8')})
        rc, out, err_ = ctx.ironplcc(['check'], {'f.st': data})
        key = lambda rc_, e: (rc_, sorted(re.findall(r'error\[(P\d{4})\]', e)), sorted(re.findall(r'f\.st:(\d+:\d+)', e)))
        # the token listing shows every token with its (byte based) line and column: the decoded text itself is observable there
        t0 = ctx.ironplcc(['tokenize'], {'f.st': text.encode('utf-8')}); t1 = ctx.ironplcc(['tokenize'], {'f.st': data})
        strip = lambda out: re.sub(r'\x1b\[[0-9;]*m', '', out[1])
        bad = key(rc, err_) != key(rc0, err0) or (t0[0], strip(t0)) != (t1[0], strip(t1))
        det = {'encoding': enc, 'utf8_result': key(rc0, err0), 'this_result': key(rc, err_), 'tokenize_same': (t0[0], strip(t0)) == (t1[0], strip(t1))}
        if bad: return bad, det
        # large files: the first non-ASCII character lies behind / across a power-of-two boundary of the stored bytes (a slip that looks only at a part of the file shows here)
        import codecs
        enc_py = {'windows1252-c1': 'cp1252', 'windows1252': 'cp1252', 'utf8': 'utf-8', 'utf8-bom': 'utf-8', 'utf16le-bom': 'utf-16-le', 'utf16be-bom': 'utf-16-be'}.get(enc)
        bom = {'utf8-bom': b'\xef\xbb\xbf', 'utf16le-bom': b'\xff\xfe', 'utf16be-bom': b'\xfe\xff'}.get(enc, b'')
        special = '€' if enc == 'windows1252-c1' else 'é'
        for B in (1024, 4096, 8192, 16384, 65536):
            for delta in (-1, 0, 40):
                head = 'PROGRAM p\nVAR\n  x : INT;\nEND_VAR\n'
                # pad with an ASCII comment so that the special character starts at stored byte B + delta
                unit = 2 if enc_py.startswith('utf-16') else 1
                target = (B + delta - len(bom)) // unit
                pad = target - len(head) - 3
                if pad < 1: continue
                big = head + '(* ' + 'a' * (pad - 0) + special + ' *) @\n  y := 1;\nEND_PROGRAM\n'
                big = big[:len(head) + 3] + big[len(head) + 3:]
                data_b = bom + big.encode(enc_py)
                r0 = ctx.ironplcc(['check'], {'f.st': big.encode('utf-8')}); r1 = ctx.ironplcc(['check'], {'f.st': data_b})
                if key(r0[0], r0[2]) != key(r1[0], r1[2]):
                    return True, {'encoding': enc, 'file_bytes': len(data_b), 'first_non_ascii_at_byte': data_b.find(special.encode(enc_py)), 'utf8_result': key(r0[0], r0[2]), 'this_result': key(r1[0], r1[2])}
        return False, det
    return rp


# ---------------------------------------------------------------------------------------------- K2/K3 lexer total on every decoded text
_CTX = None
def _k2_job(job):
    N, prefixes = job
    ctx = _CTX; part = Part()
    M, entry, b, L, toks, LM = LC.tokenize_machine(ctx, N)
    valid = M.base_constraints[0]
    def on_path(M, pr):
        part.paths += 1
        if pr.inconclusive: part.inconc(pr.inconclusive); return
        s = z3.Solver(); s.add(valid, *pr.pc)
        part.nontrivial += 1
        def wit(role, what):
            t = time.time(); r = s.check(); part.solver_s += time.time() - t; part.queries += 1
            if r != z3.sat: return
            data = LC.model_bytes(s.model(), b)
            part.add(role, '%s (witness %r)' % (what, data), {'source_bytes': list(data)}, ('tokens_total', (data,)))
        if pr.panic: wit('C14/K2/panic', 'tokenize panics on valid UTF-8 text: ' + pr.panic.msg[:50]); return
        res = pr.result
        spans = [(simp(t.f[1].f[0]), simp(t.f[1].f[1])) for t in res.f[0].items]
        for d in res.f[1].items:
            sp = _find_span(M, d)
            if sp is None: part.inconc('diagnostic without span'); return
            spans.append((simp(sp.f[0]), simp(sp.f[1])))
        spans.sort(); pos = 0; okk = True
        for a, e in spans:
            if a != pos or e <= a: okk = False
            pos = e
        if pos != N or not okk: wit('C14/K2/not-tiled', 'tokens and error spans do not cover every byte exactly once: %s' % spans); return
        bnd = [(b[p] & 0xC0) == 0x80 for a, e in spans for p in (a, e) if 0 < p < N]
        if bnd:
            s.push(); s.add(z3.Or(bnd)); wit('C14/K2/span-inside-character', 'a token or error span boundary falls inside a multi-byte character'); s.pop()
        if len(part.samples) < 1: part.samples.append({'N': N, 'spans': spans})
    M.explore(entry, on_path, prefixes=prefixes)
    part.queries += M.stats['smt']; part.encoded = set(M.encoded); part.models = set(M.models_used)
    return part

def _find_span(M, d):
    stack = [d]
    while stack:
        v = stack.pop()
        if isinstance(v, Agg) and re.sub(r'<.*', '', v.name).split('::')[-1] in ('SourceSpan', 'Location'): return v
        if isinstance(v, (Agg, EnumV)): stack.extend(reversed(v.f))
        elif isinstance(v, VecV): stack.extend(reversed(v.items))
        elif isinstance(v, Ref): stack.append(M.get(v.cell, v.path))
    return None

@replay_factory('tokens_total')
def _replay_tokens_total(data):
    def rp(ctx):
        src = data.decode('utf-8')
        r = ctx.replay({'cmd': 'tokenize', 'source': src})
        if 'panic' in r: return True, r
        spans = sorted([(t['start'], t['end']) for t in r['tokens'] if not (t['type'] == 'Semicolon' and t['text'] == '')] + [(d['start'], d['end']) for d in r['diagnostics']])
        pos = 0; bad = False; bs = src.encode()
        for a, e in spans:
            if a != pos or e <= a: bad = True
            pos = e
            for p in (a, e):
                if 0 < p < len(bs) and (bs[p] & 0xC0) == 0x80: bad = True
        return bad or pos != len(bs), {'spans': spans, 'len': len(bs)}
    return rp

@kernel('K2 lexer.total_on_utf8')
def k2(ctx, kr):
    global _CTX
    _CTX = ctx
    NMAX = 4 if ctx.tier == 'quick' else 6
    kr.bounds = 'every valid UTF-8 text of 1..%d bytes (all bytes symbolic, 1-4 byte characters): no panic, every byte in exactly one token or error span, span boundaries on character boundaries' % NMAX
    jobs = []
    for N in range(1, NMAX + 1):
        M, entry, b, L, toks, LM = LC.tokenize_machine(ctx, N)
        done, pending = M.split(entry, 2 if N < 5 else 4)
        pref = [d.trace for d in done] + pending
        chunk = max(1, len(pref) // 28 + 1)
        for i in range(0, len(pref), chunk): jobs.append((N, pref[i:i + chunk]))
    jobs.sort(key=lambda j: -j[0])
    for part in par_map(_k2_job, jobs): merge_part(kr, part)
    P = ctx.program()
    kr.functions = fn_paths(P, getattr(kr, '_enc', set())) + ['ironplc-parser::<TokenType as Logos>::lex (lifted)']
    kr.stubs = LC.STUB_NOTES
    kr.exhaustive = True

# ---------------------------------------------------------------------------------------------- K3 one arbitrary Unicode scalar in every lexical context
CONTEXTS = {'in_comment': ('(* ', ' *)'), 'in_string': ("'", "'"), 'in_wstring': ('"', '"'), 'between_tokens': ('a ', ' b'), 'inside_identifier': ('ab', 'cd'), 'after_line_comment': ('// ', '\nx')}

def _k3_job(job):
    cname, nb = job
    ctx = _CTX; part = Part()
    pre, post = CONTEXTS[cname]
    u = [z3.BitVec('u%d' % i, 8) for i in range(nb)]
    valid, _ = LC.utf8_valid(u)
    # exactly one character of nb bytes
    lead = {1: z3.ULT(u[0], 0x80), 2: z3.And(z3.UGE(u[0], 0xC2), z3.ULE(u[0], 0xDF)), 3: z3.And(z3.UGE(u[0], 0xE0), z3.ULE(u[0], 0xEF)), 4: z3.And(z3.UGE(u[0], 0xF0), z3.ULE(u[0], 0xF4))}[nb]
    allb = list(pre.encode()) + u + list(post.encode()); N = len(allb)
    M, entry, b, L, toks, LM = LC.tokenize_machine(ctx, N, bytes_=allb)
    M.base_constraints = [valid, lead]
    def on_path(M, pr):
        part.paths += 1
        if pr.inconclusive: part.inconc('%s: %s' % (cname, pr.inconclusive)); return
        s = z3.Solver(); s.add(valid, lead, *pr.pc)
        part.nontrivial += 1
        def wit(role, what):
            t = time.time(); r = s.check(); part.solver_s += time.time() - t; part.queries += 1
            if r != z3.sat: return
            m = s.model(); data = bytes(x if isinstance(x, int) else m.eval(x, True).as_long() for x in allb)
            part.add(role, '%s (witness %r)' % (what, data.decode('utf-8', 'replace')), {'source_bytes': list(data)}, ('tokens_total', (data,)))
        if pr.panic: wit('C14/K3/%s/panic' % cname, 'tokenize panics: ' + pr.panic.msg[:50]); return
        res = pr.result
        spans = [(simp(t.f[1].f[0]), simp(t.f[1].f[1])) for t in res.f[0].items]
        for d in res.f[1].items:
            sp = _find_span(M, d)
            if sp is None: part.inconc('diagnostic without span'); return
            spans.append((simp(sp.f[0]), simp(sp.f[1])))
        spans.sort(); pos = 0; okk = True
        for a, e in spans:
            if a != pos or e <= a: okk = False
            pos = e
        if pos != N or not okk: wit('C14/K3/%s/not-tiled' % cname, 'tokens and error spans do not cover every byte exactly once: %s' % spans); return
        p0 = len(pre.encode())
        inside = [(a, e) for a, e in spans for p in (a, e) if p0 < p < p0 + nb]
        if inside: wit('C14/K3/%s/span-inside-character' % cname, 'a token or error span boundary falls inside the multi-byte character: %s' % inside)
        if len(part.samples) < 1: part.samples.append({'context': cname, 'character_bytes': nb, 'spans': spans})
    M.explore(entry, on_path)
    part.queries += M.stats['smt']; part.encoded = set(M.encoded); part.models = set(M.models_used)
    return part

@kernel('K3 lexer.any_scalar_in_every_context')
def k3(ctx, kr):
    global _CTX
    _CTX = ctx
    kr.bounds = ('one arbitrary Unicode scalar value (1, 2, 3 or 4 bytes, all bytes symbolic) placed inside a comment, inside a single and a double quoted string, between two tokens, inside an identifier and after a line comment '
                 '(%s): lexer::tokenize does not panic, tokens and error spans tile the text, no boundary falls inside the character' % ', '.join('%r' % (v,) for v in CONTEXTS.values()))
    for part in par_map(_k3_job, [(c, nb) for c in CONTEXTS for nb in (1, 2, 3, 4)]): merge_part(kr, part)
    P = ctx.program()
    kr.functions = fn_paths(P, getattr(kr, '_enc', set())) + ['ironplc-parser::<TokenType as Logos>::lex (lifted)']
    kr.stubs = LC.STUB_NOTES
    kr.exhaustive = True
    kr.outside = ['several non-ASCII characters in a row; other contexts']

# ---------------------------------------------------------------------------------------------- K4 long lexemes of multi-byte characters never crash the front end (= C04-K9)
@kernel('K4 frontend.long_non_ascii_lexemes')
def k4(ctx, kr):
    """arbitrary byte content decodes to text with multi-byte characters anywhere, also in long comments, strings and runs of invalid characters: same kernel as C04-K9"""
    from . import C04 as K04
    K04.k9(ctx, kr)
    for f in kr.findings: f.role = f.role.replace('C04/K9/', 'C14/K4/')

KERNELS = [k1, k2, k3, k4]
